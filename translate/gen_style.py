"""GenStyle.v: the DEFAULTS tree, the style schema and the constructor forwarding table, from /repo.

* DEFAULTS: pure literal of defaults/defaults_values.py (ast.literal_eval of the assignment).
* schema: by introspection of the classes of style.py / defaults_classes.py as they are in the repo's
  working tree: class -> properties in dir() order (the order in which MagicProperties re-applies them)
  -> kind.  The kind of every property is decided from the AST of its getter and setter:
    stored leaf + validator kind | sub-object (validate_property_class) | alias (getter reads /
    setter writes another property).  Any getter/setter shape or assert condition that is not in the
    table below raises (fail closed).
* explicit __init__ parameters (order in which they reach MagicProperties.__init__, defaults): by walking
  the MRO and reading each __init__'s AST (must be a single keyword-forwarding super().__init__ call).
* families of every BaseGeo class (get_families), their style class, and how each public constructor
  forwards `style` up to BaseGeo.__init__ (keyword / positional-into-which-parameter).
* color table: color_validator evaluated on a fixed pool of inputs (+ every colour in DEFAULTS).
"""
import ast
import importlib
import inspect
import os
import sys
import textwrap


class Untranslatable(Exception):
    pass


def fail(msg):
    raise Untranslatable(msg)


# ------------------------------------------------------------------ Coq literals
def cstr(s):
    if not isinstance(s, str) or any(ord(c) < 32 or ord(c) > 126 for c in s):
        fail(f"string not printable ascii: {s!r}")
    return '"' + s.replace('"', '""') + '"'


def cz(n):
    return f"({n})%Z" if n < 0 else f"{n}%Z"


def cval(v):
    if isinstance(v, bool):
        return "(VBool true)" if v else "(VBool false)"
    if isinstance(v, int):
        return f"(VInt {cz(v)})"
    if isinstance(v, float):
        if v != v or v in (float("inf"), float("-inf")):
            fail("non-finite float")
        n, d = v.as_integer_ratio()
        return f"(VFlt {cz(n)} {d}%positive)"
    if isinstance(v, str):
        return f"(VStr {cstr(v)})"
    if isinstance(v, (tuple, list)):
        return "(VTup [" + "; ".join(cval(x) for x in v) + "])"
    fail(f"value not representable: {v!r}")


def coval(v):
    return "None" if v is None else f"(Some {cval(v)})"


def ctree(t, ind=0):
    if isinstance(t, dict):
        pad = " " * (ind + 2)
        items = [f"({cstr(k)}, {ctree(v, ind + 2)})" for k, v in t.items()]
        if not items:
            return "(Node [])"
        return "(Node [\n" + pad + (";\n" + pad).join(items) + "])"
    return f"(Leaf {coval(t)})"


def clist(items, sep="; "):
    return "[" + sep.join(items) + "]"


# ------------------------------------------------------------------ DEFAULTS (pure literal)
def load_defaults(repo):
    path = os.path.join(repo, "magpylib/_src/defaults/defaults_values.py")
    tree = ast.parse(open(path).read())
    found = [n for n in tree.body if isinstance(n, ast.Assign)
             and any(isinstance(t, ast.Name) and t.id == "DEFAULTS" for t in n.targets)]
    if len(found) != 1:
        fail("defaults_values.py: expected exactly one assignment to DEFAULTS")
    try:
        return ast.literal_eval(found[0].value)
    except Exception as e:   # pylint: disable=broad-except
        fail(f"DEFAULTS is not a pure literal: {e}")


# ------------------------------------------------------------------ AST helpers
_MOD_CACHE = {}


def fn_ast(fn):
    """FunctionDef node of a function object, found by its first line in its module's AST"""
    try:
        path = inspect.getsourcefile(fn)
        line = fn.__code__.co_firstlineno
    except (OSError, TypeError, AttributeError) as e:
        fail(f"no source for {fn}: {e}")
    if path not in _MOD_CACHE:
        idx = {}
        for node in ast.walk(ast.parse(open(path).read())):
            if isinstance(node, ast.FunctionDef):
                first = min([node.lineno] + [d.lineno for d in node.decorator_list])
                idx[first] = node
        _MOD_CACHE[path] = idx
    node = _MOD_CACHE[path].get(line)
    if node is None or node.name != fn.__name__:
        fail(f"function {fn} not found at {path}:{line}")
    return node


def strip_doc(body):
    if body and isinstance(body[0], ast.Expr) and isinstance(body[0].value, ast.Constant) \
            and isinstance(body[0].value.value, str):
        return body[1:]
    return body


class _Norm(ast.NodeTransformer):
    """canonical form of an assert condition: isinstance tuples sorted"""

    def visit_Call(self, node):
        self.generic_visit(node)
        if isinstance(node.func, ast.Name) and node.func.id == "isinstance" and len(node.args) == 2 \
                and isinstance(node.args[1], ast.Tuple):
            node.args[1].elts.sort(key=ast.unparse)
        return node


def norm(expr):
    return ast.unparse(_Norm().visit(ast.parse(ast.unparse(expr), mode="eval").body))


def is_self_attr(node, name=None):
    return isinstance(node, ast.Attribute) and isinstance(node.value, ast.Name) and node.value.id == "self" \
        and (name is None or node.attr == name)


def attr_chain(node):
    """self.a.b.c -> ['a','b','c'] or None"""
    out = []
    while isinstance(node, ast.Attribute):
        out.append(node.attr)
        node = node.value
    if isinstance(node, ast.Name) and node.id == "self":
        return out[::-1]
    return None


SIMPLE_TESTS = {
    "val is None or isinstance(val, bool)": "KBool",
    "isinstance(val, bool)": "KBoolStrict",
    "val is None or (isinstance(val, (float, int)) and val >= 0)": "KNumGe0",
    "val is None or (isinstance(val, (float, int)) and val > 0)": "KNumGt0",
    "isinstance(val, (float, int)) and val > 0": "KNumGt0Strict",
    "val is None or (isinstance(val, (float, int)) and 0 <= val <= 1)": "KUnit",
    "val is None or isinstance(val, (float, int))": "KNum",
    "val is None or (isinstance(val, int) and val > 0)": "KIntGt0",
    "val is None or isinstance(val, str)": "KStr",
}

# setters that are recognised as a whole (assert messages removed, canonical unparse)
WHOLE_SETTERS = {
    "KFrames": (
        "is_valid_path = True\n"
        "if hasattr(val, '__iter__') and (not isinstance(val, str)):\n"
        "    val = tuple(val)\n"
        "    if not all((np.issubdtype(type(v), int) for v in val)):\n"
        "        is_valid_path = False\n"
        "elif not (val is None or np.issubdtype(type(val), int)):\n"
        "    is_valid_path = False\n"
        "assert is_valid_path\n"
        "self._frames = val"),
    "KOutput": (
        "if val is not None:\n"
        "    val = str(val)\n"
        "    valid = val.endswith('mp4') or val.endswith('gif')\n"
        "    assert val is None or valid\n"
        "self._output = val"),
    "KColorSeq": (
        "if val is not None:\n"
        "    name = type(self).__name__\n"
        "    try:\n"
        "        val = tuple((color_validator(c, allow_None=False, parent_name=f'{name}') for c in val))\n"
        "    except TypeError as err:\n"
        "        raise ValueError(f'The `colorsequence` property of {name} must be an iterable of colors "
        "but received {val!r} instead') from err\n"
        "self._colorsequence = val"),
}


class _DropAssertMsg(ast.NodeTransformer):
    def visit_Assert(self, node):
        return ast.Assert(test=node.test, msg=None)


def body_text(body):
    mod = ast.Module(body=[_DropAssertMsg().visit(s) for s in body], type_ignores=[])
    return ast.unparse(ast.fix_missing_locations(mod))


class SchemaBuilder:
    def __init__(self, magic_base, validate_fn_name="validate_property_class"):
        self.magic_base = magic_base
        self.vpc = validate_fn_name
        self.aliases = []          # (class name, property, target path)
        self.nclasses = 0
        self.nprops = 0
        self.stack = []
        self.reset_after_init = []

    # ---- explicit __init__ parameters in the order they reach MagicProperties.__init__
    def ctor_params(self, cls):
        mro = cls.__mro__
        order, defaults = [], {}
        i = 0
        has_kw = True
        first = True
        while i < len(mro):
            c = mro[i]
            if c is self.magic_base or c is object:
                break
            init = c.__dict__.get("__init__")
            if init is None:
                i += 1
                continue
            node = fn_ast(init)
            a = node.args
            if a.posonlyargs or a.kwonlyargs or a.vararg:
                fail(f"{c.__name__}.__init__: unsupported signature")
            names = [x.arg for x in a.args]
            if names[:1] != ["self"] or len(a.defaults) != len(names) - 1:
                fail(f"{c.__name__}.__init__: every parameter needs a default")
            params = names[1:]
            dvals = []
            for d in a.defaults:
                try:
                    dvals.append(ast.literal_eval(d))
                except Exception:   # pylint: disable=broad-except
                    fail(f"{c.__name__}.__init__: non-literal default")
            body = strip_doc(node.body)
            if len(body) == 2 and ast.unparse(body[1]) == "self.reset()":
                self.reset_after_init.append(c.__name__)       # DefaultSettings: modelled by defaults_new
                body = body[:1]
            if len(body) != 1 or not isinstance(body[0], ast.Expr) or not isinstance(body[0].value, ast.Call):
                fail(f"{c.__name__}.__init__: body is not a single super().__init__ call")
            call = body[0].value
            if ast.unparse(call.func) != "super().__init__" or call.args:
                fail(f"{c.__name__}.__init__: not a keyword-only super().__init__ call")
            kws = []
            star = False
            for kw in call.keywords:
                if kw.arg is None:
                    if a.kwarg is None or not isinstance(kw.value, ast.Name) or kw.value.id != a.kwarg.arg:
                        fail(f"{c.__name__}.__init__: unexpected ** forwarding")
                    star = True
                else:
                    if not isinstance(kw.value, ast.Name) or kw.value.id != kw.arg or kw.arg not in params:
                        fail(f"{c.__name__}.__init__: parameter {kw.arg} not forwarded under its own name")
                    kws.append(kw.arg)
            if sorted(kws) != sorted(params):
                fail(f"{c.__name__}.__init__: not every explicit parameter is forwarded")
            if (a.kwarg is not None) != star:
                fail(f"{c.__name__}.__init__: **kwargs accepted but not forwarded (or vice versa)")
            if first:
                has_kw = a.kwarg is not None
                first = False
            elif a.kwarg is None:
                fail(f"{c.__name__}.__init__: an inner __init__ without **kwargs is not modelled")
            for k, dv in zip(params, dvals):
                if k not in defaults:
                    defaults[k] = dv
            # python re-sends this level's keywords first, then the remaining **kwargs in their order
            order = kws + [k for k in order if k not in kws]
            i += 1
        return has_kw, [(k, defaults[k]) for k in order]

    def resolve(self, fn, node, cls):
        """value of a name / self._attr / literal expression used as an enum list"""
        if isinstance(node, ast.Name):
            if node.id in fn.__globals__:
                return fn.__globals__[node.id]
            fail(f"unknown name {node.id}")
        if is_self_attr(node):
            return getattr(cls, node.attr)
        fail(f"cannot resolve {ast.unparse(node)}")

    def leaf_kind(self, cls, name, fset, body):
        """body: setter statements; last one is `self._name = <expr>`"""
        last = body[-1]
        pre = body[:-1]
        val = last.value
        # whole-setter shapes
        txt = body_text(body)
        for kind, shape in WHOLE_SETTERS.items():
            if txt == shape:
                return (kind, None)
        if isinstance(val, ast.Call) and isinstance(val.func, ast.Name) and val.func.id == "color_validator":
            if pre or len(val.args) != 1 or ast.unparse(val.args[0]) != "val" \
                    or any(k.arg != "parent_name" for k in val.keywords):
                fail(f"{cls.__name__}.{name}: unknown color_validator call shape")
            return ("KColor", None)
        if isinstance(val, ast.IfExp):
            if pre or ast.unparse(val) != "val if val is None else str(val)":
                fail(f"{cls.__name__}.{name}: unknown conditional setter")
            return ("KToStr", None)
        if isinstance(val, ast.Call) and ast.unparse(val) == "self._validate_data(val)" and not pre:
            return ("KData", None)
        if not (isinstance(val, ast.Name) and val.id == "val"):
            fail(f"{cls.__name__}.{name}: stored value is not `val`: {ast.unparse(val)}")
        local = {}
        stmts = list(pre)
        while stmts and isinstance(stmts[0], ast.Assign):
            s = stmts.pop(0)
            if len(s.targets) != 1 or not isinstance(s.targets[0], ast.Name):
                fail(f"{cls.__name__}.{name}: unsupported local assignment")
            try:
                local[s.targets[0].id] = eval(   # pylint: disable=eval-used
                    compile(ast.Expression(s.value), "<setter>", "eval"), dict(fset.__globals__), {})
            except Exception as e:   # pylint: disable=broad-except
                fail(f"{cls.__name__}.{name}: local value not evaluable: {e}")
        if len(stmts) != 1 or not isinstance(stmts[0], ast.Assert):
            fail(f"{cls.__name__}.{name}: setter is not `assert <cond>; self._{name} = val`")
        test = stmts[0].test
        t = norm(test)
        if t in SIMPLE_TESTS:
            return (SIMPLE_TESTS[t], None)
        # enum: val is None or val in X
        if isinstance(test, ast.BoolOp) and isinstance(test.op, ast.Or) and len(test.values) == 2 \
                and ast.unparse(test.values[0]) == "val is None":
            c = test.values[1]
            if isinstance(c, ast.Compare) and len(c.ops) == 1 and isinstance(c.ops[0], ast.In) \
                    and ast.unparse(c.left) == "val":
                x = c.comparators[0]
                if isinstance(x, ast.Name) and x.id in local:
                    allowed = local[x.id]
                else:
                    allowed = self.resolve(fset, x, cls)
                if not isinstance(allowed, (tuple, list)):
                    fail(f"{cls.__name__}.{name}: enum domain is not a tuple/list")
                for v in allowed:
                    cval(v)          # representable, or fail closed
                return ("KEnum", list(allowed))
        fail(f"{cls.__name__}.{name}: unknown assert condition: {t}")

    def prop_schema(self, cls, name, prop):
        if prop.fget is None or prop.fset is None:
            fail(f"{cls.__name__}.{name}: property without getter/setter")
        g = strip_doc(fn_ast(prop.fget).body)
        s = strip_doc(fn_ast(prop.fset).body)
        sargs = [a.arg for a in fn_ast(prop.fset).args.args]
        if sargs != ["self", "val"]:
            fail(f"{cls.__name__}.{name}: setter signature {sargs}")
        if len(g) != 1 or not isinstance(g[0], ast.Return):
            fail(f"{cls.__name__}.{name}: getter is not a single return")
        gv = g[0].value
        if is_self_attr(gv, "_" + name):
            # stored property
            last = s[-1]
            # description / legend: str -> Class(text=val)
            if len(s) == 1 and isinstance(last, ast.If) and ast.unparse(last.test) == "isinstance(val, str)" \
                    and len(last.body) == 1 and len(last.orelse) == 1:
                a, b = last.body[0], last.orelse[0]
                sub = self.sub_call(cls, name, prop.fset, b)
                if sub is None or not isinstance(a, ast.Assign) or not is_self_attr(a.targets[0], "_" + name) \
                        or ast.unparse(a.value) != f"{sub.__name__}(text=val)":
                    fail(f"{cls.__name__}.{name}: unknown str special case")
                return self.class_struct(sub, strtext=True)
            if not (isinstance(last, ast.Assign) and len(last.targets) == 1
                    and is_self_attr(last.targets[0], "_" + name)):
                fail(f"{cls.__name__}.{name}: setter does not end with self._{name} = ...")
            sub = self.sub_call(cls, name, prop.fset, last)
            if sub is not None:
                if len(s) != 1:
                    fail(f"{cls.__name__}.{name}: statements before validate_property_class")
                return self.class_struct(sub, strtext=False)
            return ("leaf", self.leaf_kind(cls, name, prop.fset, s))
        chain = attr_chain(gv)
        if chain and len(chain) >= 2 and not any(c.startswith("_") for c in chain):
            # alias: getter reads self.a.b ; setter must be `if val is not None: self.a.b = val`
            ok = len(s) == 1 and isinstance(s[0], ast.If) and ast.unparse(s[0].test) == "val is not None" \
                and not s[0].orelse and len(s[0].body) == 1 and isinstance(s[0].body[0], ast.Assign) \
                and attr_chain(s[0].body[0].targets[0]) == chain and ast.unparse(s[0].body[0].value) == "val"
            if not ok:
                fail(f"{cls.__name__}.{name}: alias getter with an unknown setter shape")
            self.aliases.append((cls.__name__, name, chain))
            return ("ALIAS", chain)
        fail(f"{cls.__name__}.{name}: unknown getter {ast.unparse(gv)}")

    def sub_call(self, cls, name, fset, stmt):
        """`self._x = validate_property_class(val, "<str>", Cls, self)` -> Cls or None"""
        if not isinstance(stmt, ast.Assign) or not isinstance(stmt.value, ast.Call):
            return None
        c = stmt.value
        if not (isinstance(c.func, ast.Name) and c.func.id == self.vpc):
            return None
        if len(c.args) != 4 or c.keywords or ast.unparse(c.args[0]) != "val" or ast.unparse(c.args[3]) != "self" \
                or not isinstance(c.args[2], ast.Name) or not is_self_attr(stmt.targets[0], "_" + name):
            fail(f"{cls.__name__}.{name}: unknown validate_property_class call shape")
        sub = fset.__globals__.get(c.args[2].id)
        if not (inspect.isclass(sub) and issubclass(sub, self.magic_base)):
            fail(f"{cls.__name__}.{name}: sub-class {c.args[2].id} is not a MagicProperties class")
        return sub

    def class_schema(self, cls, strtext=False):
        return emit_schema(self.class_struct(cls, strtext))

    def class_struct(self, cls, strtext=False):
        """python structure: ("leaf", kind) | ("alias", target, kind) |
        ("obj", class name, strtext, has_kw, ctor [(name, default)], props [(name, struct)])"""
        if cls in self.stack:
            fail(f"recursive style class {cls.__name__}")
        self.stack.append(cls)
        self.nclasses += 1
        hidden = []
        for c in cls.__mro__:
            if c is self.magic_base or c is object:
                continue
            for meth in ("update", "copy", "__setattr__", "_freeze", "_property_names_generator",
                         "__getattr__", "__getattribute__", "__deepcopy__", "__copy__"):
                if meth in c.__dict__:
                    fail(f"{c.__name__} overrides MagicProperties.{meth}: not modelled")
            if "as_dict" in c.__dict__:
                hidden += self.as_dict_override(c)
        names = [a for a in dir(cls) if isinstance(getattr(cls, a, None), property)]
        if any("_" in n for n in names):
            fail(f"{cls.__name__}: property name contains the magic separator")
        has_kw, ctor = self.ctor_params(cls)
        props = []
        for n in names:
            self.nprops += 1
            props.append((n, self.prop_schema(cls, n, getattr(cls, n))))
        # resolve aliases: the kind of the target leaf inside this class
        out = []
        for n, ps in props:
            if isinstance(ps, tuple) and ps[0] == "ALIAS":
                tgt = ps[1]
                k = self.find_leaf_kind(cls, tgt)
                out.append((n, ("alias", list(tgt), k, n not in hidden)))
            else:
                out.append((n, ps))
        self.stack.pop()
        for h in hidden:
            if not any(n == h and isinstance(ps, tuple) and ps[0] == "ALIAS" for n, ps in props):
                fail(f"{cls.__name__}.as_dict hides `{h}`, which is not an alias property")
        for k, _ in ctor:
            if k not in names:
                fail(f"{cls.__name__}.__init__: parameter {k} is not a property")
        return ("obj", cls.__name__, strtext, has_kw, list(ctor), out)

    AS_DICT_OVERRIDE = (
        "dict_ = super().as_dict()\n"
        "dict_.pop({name!r}, None)\n"
        "if flatten:\n"
        "    dict_ = linearize_dict(dict_, separator=separator)\n"
        "return dict_")

    def as_dict_override(self, c):
        """the only accepted override: as_dict of the base class minus one alias property"""
        node = fn_ast(c.__dict__["as_dict"])
        a = node.args
        if [x.arg for x in a.args] != ["self", "flatten", "separator"] or a.vararg or a.kwarg or a.kwonlyargs \
                or [ast.unparse(d) for d in a.defaults] != ["False", "'.'"]:
            fail(f"{c.__name__}.as_dict: unknown signature")
        body = strip_doc(node.body)
        txt = body_text(body)
        if len(body) != 4 or not isinstance(body[1], ast.Expr) or not isinstance(body[1].value, ast.Call) \
                or len(body[1].value.args) != 2 or not isinstance(body[1].value.args[0], ast.Constant):
            fail(f"{c.__name__}.as_dict: override of unknown shape")
        name = body[1].value.args[0].value
        if not isinstance(name, str) or txt != self.AS_DICT_OVERRIDE.format(name=name):
            fail(f"{c.__name__}.as_dict: override of unknown shape")
        lin = fn_ast(c.__dict__["as_dict"])   # linearize_dict must be the library's
        g = c.__dict__["as_dict"].__globals__.get("linearize_dict")
        if g is None or g.__module__ != "magpylib._src.defaults.defaults_utility" or lin is None:
            fail(f"{c.__name__}.as_dict: linearize_dict is not defaults_utility.linearize_dict")
        return [name]

    def find_leaf_kind(self, cls, tgt):
        c = cls
        for i, seg in enumerate(tgt):
            p = getattr(c, seg, None)
            if not isinstance(p, property):
                fail(f"alias target {tgt} not a property chain")
            if i == len(tgt) - 1:
                s = strip_doc(fn_ast(p.fset).body)
                return self.leaf_kind(c, seg, p.fset, s)
            stmt = strip_doc(fn_ast(p.fset).body)[-1]
            c = self.sub_call(c, seg, p.fset, stmt)
            if c is None:
                fail(f"alias target {tgt}: {seg} is not a sub-object")
        fail("empty alias target")


def kind_text(k):
    name, allowed = k
    if name == "KEnum":
        return "(KEnum " + clist([cval(v) for v in allowed]) + ")"
    return name


def emit_schema(st):
    if st[0] == "leaf":
        return "(SLeaf " + kind_text(st[1]) + ")"
    if st[0] == "alias":
        return f"(SAlias {clist([cstr(x) for x in st[1]])} {kind_text(st[2])} {'true' if st[3] else 'false'})"
    _, cname, strtext, has_kw, ctor, props = st
    return ("(SObj " + cstr(cname) + (" true" if strtext else " false")
            + (" true" if has_kw else " false") + "\n  "
            + clist([f"({cstr(k)}, {coval(v)})" for k, v in ctor]) + "\n  "
            + clist([f"({cstr(n)}, {emit_schema(ps)})" for n, ps in props], ";\n   ") + ")")


# ------------------------------------------------------------------ constructor forwarding of `style`
def style_forwarding(cls, basegeo):
    """follow `style` from cls.__init__ up to BaseGeo.__init__; returns (ok, detail)"""
    chain = [c for c in cls.__mro__ if "__init__" in c.__dict__ and c is not object]
    carrier = "style"
    idx = 0
    steps = 0
    while idx < len(chain):
        steps += 1
        if steps > 20:
            fail("constructor chain too long")
        c = chain[idx]
        node = fn_ast(c.__dict__["__init__"])
        params = [a.arg for a in node.args.args + node.args.kwonlyargs]
        calls = [n for n in ast.walk(node) if isinstance(n, ast.Call) and
                 (ast.unparse(n.func) == "super().__init__" or
                  (isinstance(n.func, ast.Attribute) and n.func.attr == "__init__"
                   and isinstance(n.func.value, ast.Name) and n.func.value.id != "self"))]
        # transparent wrapper: def __init__(self, *args, **kwargs): super().__init__(*args, **kwargs)
        if params == ["self"] and node.args.vararg is not None and node.args.kwarg is not None:
            if len(calls) == 1 and ast.unparse(calls[0]) == \
                    f"super().__init__(*{node.args.vararg.arg}, **{node.args.kwarg.arg})":
                idx += 1
                continue
            fail(f"{c.__name__}.__init__: *args/**kwargs constructor of unknown shape")
        if carrier not in params:
            return False, f"{c.__name__}.__init__ has no parameter {carrier}"
        if c is basegeo:
            return carrier == "style", f"arrives at BaseGeo.__init__ as {carrier}"
        uses = []
        for call in calls:
            names = [a.id for a in call.args if isinstance(a, ast.Name)] + \
                    [k.value.id for k in call.keywords if isinstance(k.value, ast.Name)]
            if carrier in names:
                uses.append(call)
        if len(uses) != 1:
            return False, f"{c.__name__}.__init__ does not forward {carrier} to exactly one parent __init__"
        call = uses[0]
        if ast.unparse(call.func) == "super().__init__":
            if idx + 1 >= len(chain):
                fail(f"{c.__name__}.__init__: super() beyond the MRO")
            parent = chain[idx + 1]
            args = call.args
            nxt_chain = chain[idx + 1:]
        else:
            pname = call.func.value.id
            parent = next((m for m in cls.__mro__ if m.__name__ == pname), None)
            if parent is None or not call.args or ast.unparse(call.args[0]) != "self":
                fail(f"{c.__name__}.__init__: explicit parent call not understood")
            args = call.args[1:]
            nxt_chain = [m for m in parent.__mro__ if "__init__" in m.__dict__ and m is not object]
        pparams = [a.arg for a in fn_ast(parent.__dict__["__init__"]).args.args]
        nxt = None
        for i, a in enumerate(args):
            if isinstance(a, ast.Starred):
                fail(f"{c.__name__}.__init__: *args forwarding next to {carrier}")
            if isinstance(a, ast.Name) and a.id == carrier:
                if i + 1 >= len(pparams):
                    return False, f"{c.__name__} passes {carrier} positionally beyond {parent.__name__}'s parameters"
                nxt = pparams[i + 1]
        for kw in call.keywords:
            if kw.arg is not None and isinstance(kw.value, ast.Name) and kw.value.id == carrier:
                if nxt is not None:
                    fail(f"{c.__name__}.__init__: {carrier} forwarded twice")
                nxt = kw.arg
        if nxt is None:
            return False, f"{c.__name__}.__init__ does not forward {carrier}"
        if nxt != "style":
            return False, (f"{c.__name__}.__init__ passes style positionally into parameter "
                           f"`{nxt}` of {parent.__name__}.__init__")
        carrier = nxt
        chain = chain[:idx + 1] + nxt_chain
        idx += 1
    return False, "BaseGeo.__init__ not reached"


# ------------------------------------------------------------------ colour pool
COLOR_POOL = [
    "red", "green", "blue", "black", "white", "grey", "cyan", "magenta", "yellow", "orange", "pink",
    "r", "g", "b", "k", "w", "m", "c", "y",
    "#ff0000", "#00ff00", "#0000FF", "#abc", "#2E91E5", "Red", "dark red", "rgb(1,2,3)",
    0.5, 0, 1, True, (255, 0, 0), (1.0, 0.0, 0.0), (10, 20, 30, 40),
    "wrongcolor", "notacolor", "", "#12", "rgb(1,2)", 5, -1, 2.5, "1.5", (1, 2), "bluee",
]


def all_subclasses(c, acc=None):
    acc = [] if acc is None else acc
    for s in c.__subclasses__():
        if s not in acc:
            acc.append(s)
            all_subclasses(s, acc)
    return acc


def tree_colors(t, out):
    if isinstance(t, dict):
        for k, v in t.items():
            if isinstance(v, dict):
                tree_colors(v, out)
            elif "color" in k or k in ("north", "south", "middle"):
                if isinstance(v, (tuple, list)):
                    out.extend(v)
                elif v is not None:
                    out.append(v)


def whole_body(fn, variants, what):
    """canonical text of a function body (docstring and assert messages dropped) must be one of the variants"""
    txt = body_text(strip_doc(fn_ast(fn).body))
    for name, shape in variants.items():
        if txt == shape:
            return name
    fail(f"{what}: body matches none of the known forms:\n{txt}")


RESET_FORMS = {
    "RRebuild": "for key, val in get_defaults_dict().items():\n    setattr(self, key, val)\nreturn self",
    "RMerge": "self.update(get_defaults_dict(), _match_properties=False)\nreturn self",
}

_PSK = ("if kwargs:\n"
        "{line}"
        "    style_kwargs = {{}}\n"
        "    for k, v in kwargs.items():\n"
        "        if k.startswith('style_'):\n"
        "            style_kwargs[k[6:]] = v\n"
        "        else:\n"
        "            raise TypeError(f'__init__() got an unexpected keyword argument {{k!r}}')\n"
        "    style.update(**style_kwargs)\n"
        "return style")
PROCESS_FORMS = {
    "copy": _PSK.format(line="    style = {} if style is None else style.copy()\n"),
    "inplace": _PSK.format(line="    if style is None:\n        style = {}\n"),
}

_M2D = ("assert isinstance(kwargs, dict)\n"
        "assert isinstance(separator, str)\n"
        "new_kwargs = {{}}\n"
        "for k, v in kwargs.items():\n"
        "    keys = k.split(separator)\n"
        "    if len(keys) == 1:\n"
        "        new_kwargs[keys[0]] = v\n"
        "    else:\n"
        "        val = {{separator.join(keys[1:]): v}}\n"
        "        if keys[0] in new_kwargs and isinstance(new_kwargs[keys[0]], dict):\n"
        "            {merge}\n"
        "        else:\n"
        "            new_kwargs[keys[0]] = val\n"
        "for k, v in new_kwargs.items():\n"
        "    if isinstance(v, dict):\n"
        "        new_kwargs[k] = magic_to_dict(v, separator=separator)\n"
        "return new_kwargs")
M2D_FORMS = {
    "fresh": _M2D.format(merge="new_kwargs[keys[0]] = {**new_kwargs[keys[0]], **val}"),
    "inplace": _M2D.format(merge="new_kwargs[keys[0]].update(val)"),
}


M2D_DEEP = ("assert isinstance(kwargs, dict)\n"
            "assert isinstance(separator, str)\n"
            "new_kwargs = {}\n"
            "for k, v in kwargs.items():\n"
            "    keys = k.split(separator)\n"
            "    val = v if len(keys) == 1 else {separator.join(keys[1:]): v}\n"
            "    if isinstance(val, dict) and isinstance(new_kwargs.get(keys[0]), dict):\n"
            "        new_kwargs[keys[0]] = update_nested_dict(new_kwargs[keys[0]], val)\n"
            "    else:\n"
            "        new_kwargs[keys[0]] = val\n"
            "for k, v in new_kwargs.items():\n"
            "    if isinstance(v, dict):\n"
            "        new_kwargs[k] = magic_to_dict(v, separator=separator)\n"
            "return new_kwargs")
M2D_MODES = {"MDeep": M2D_DEEP, "MFresh": M2D_FORMS["fresh"], "MInplace": M2D_FORMS["inplace"]}

_VPC_RAISE = ("if not isinstance(val, class_):\n"
              "    raise ValueError(f'the `{name}` property of `{type(parent).__name__}` must be an instance \\nof "
              "`{class_}` or a dictionary with equivalent key/value pairs \\nbut received {repr(val)} instead')\n"
              "return val")
VPC_FORMS = {
    "copy": ("if isinstance(val, dict):\n    val = class_(**val)\nelif val is None:\n    val = class_()\n"
             "elif isinstance(val, class_):\n    val = val.copy()\n" + _VPC_RAISE),
    "keep": ("if isinstance(val, dict):\n    val = class_(**val)\nelif val is None:\n    val = class_()\n"
             + _VPC_RAISE),
}

_SCS_TAIL = ("if kwargs:\n    arg.update(kwargs)\nstyle_kwargs = arg\nif _validate:\n"
             "    style_kwargs = validate_style_keys(arg)\nfor child in self._children:\n"
             "    if isinstance(child, Collection) and recursive:\n"
             "        self.__class__.set_children_styles(child, style_kwargs, _validate=False)\n"
             "    style_kwargs_specific = {k: v for k, v in style_kwargs.items() "
             "if k.split('_')[0] in child.style.as_dict()}\n"
             "    child.style.update(**style_kwargs_specific, _match_properties=True)\nreturn self")
SCS_FORMS = {
    "copy": "arg = {} if arg is None else arg.copy()\n" + _SCS_TAIL,
    "inplace": "if arg is None:\n    arg = {}\n" + _SCS_TAIL,
}

_VS_RAISE = ("    raise ValueError(f'Input parameter `style` must be of type {self._style_class}.\\n"
             "Instead received type {type(val)}')\n")
VALIDATE_STYLE_FORMS = {
    "takeover": ("val = {} if val is None else val\n"
                 "style = self.style\n"
                 "if isinstance(val, dict):\n"
                 "    style.update(val)\n"
                 "elif isinstance(val, self._style_class):\n"
                 "    style = val.copy()\n"
                 "else:\n" + _VS_RAISE + "return style"),
    "ignore": ("val = {} if val is None else val\n"
               "style = self.style\n"
               "if isinstance(val, dict):\n"
               "    style.update(val)\n"
               "elif not isinstance(val, self._style_class):\n" + _VS_RAISE + "return style"),
}


def recursion_forwards(fn):
    """get_flatten_objects_properties_recursive: get_style(subobj, default_settings, **style_kwargs) and the
    recursive call for collection children passes style_kwargs=style_kwargs"""
    node = fn_ast(fn)
    gs = [n for n in ast.walk(node) if isinstance(n, ast.Call) and isinstance(n.func, ast.Name)
          and n.func.id == "get_style"]
    if len(gs) != 1 or ast.unparse(gs[0]) != "get_style(subobj, default_settings, **style_kwargs)":
        fail("get_flatten_objects_properties_recursive: unknown get_style call")
    rec = [n for n in ast.walk(node) if isinstance(n, ast.Call) and isinstance(n.func, ast.Name)
           and n.func.id == node.name]
    if len(rec) != 1:
        fail("get_flatten_objects_properties_recursive: expected exactly one recursive call")
    kws = {k.arg: ast.unparse(k.value) for k in rec[0].keywords}
    if [ast.unparse(a) for a in rec[0].args] != ["*subobj.children"]:
        fail("get_flatten_objects_properties_recursive: recursion is not over subobj.children")
    return kws.get("style_kwargs") == "style_kwargs"


_GETTER = ("if getattr(self, '_style', None) is None:\n    self._style = self._style_class()\n"
           "if self._style_kwargs:\n    style_kwargs = self._style_kwargs.copy()\n    {consume}\n    try:\n"
           "        self._style.update(style_kwargs)\n    except (AttributeError, ValueError) as e:\n"
           "        e.args = (f'{{self!r}} has been initialized with some invalid style arguments.\\n' + str(e),)\n"
           "        raise\nreturn self._style")
GETTER_FORMS = {
    "rebind": _GETTER.format(consume="self._style_kwargs = {}"),
    "clear": _GETTER.format(consume="self._style_kwargs.clear()"),     # empties the dict the CALLER may still hold
}
BASEGEO_INIT_FORMS = {
    "pending": ("self._style_kwargs = {}\nself._parent = None\n"
                "self._init_position_orientation(position, orientation)\n"
                "if style is not None or kwargs:\n"
                "    self._style_kwargs = self._process_style_kwargs(style=style, **kwargs)"),
}


def temp_style_restored(fn):
    """utility.style_temp_edit: the object's own style is put back in a `finally` that encloses the yield"""
    node = fn_ast(fn)
    tries = [n for n in ast.walk(node) if isinstance(n, ast.Try)]
    if len(tries) > 1:
        fail("style_temp_edit: more than one try statement")
    if not tries:
        return False
    t = tries[0]
    has_yield = any(isinstance(n, (ast.Yield, ast.YieldFrom)) for b in t.body for n in ast.walk(b))
    restores = any(ast.unparse(x) == "obj._style = orig_style" for x in t.finalbody)
    outside = [n for n in ast.walk(node) if isinstance(n, (ast.Yield, ast.YieldFrom))]
    if t.handlers or t.orelse or len(outside) != 1:
        fail("style_temp_edit: try statement of unknown shape")
    if "orig_style = getattr(obj, '_style', None)" not in [ast.unparse(x) for x in node.body]:
        fail("style_temp_edit: the original style is not saved first")
    return has_yield and restores


def collect(repo, strict=True):
    """everything GenStyle.v is printed from, as python structures (also used by harness/props/C20.py).
    strict=False (search only, never for the Coq text): a whole-body source form that is not recognised
    gives flag None instead of failing, so that the implementation-level search still has the schema"""
    repo = os.path.abspath(repo)
    _MOD_CACHE.clear()
    defaults = load_defaults(repo)

    if repo not in sys.path:
        sys.path.insert(0, repo)
    mods = {}
    for m in ("magpylib", "magpylib._src.style", "magpylib._src.defaults.defaults_classes",
              "magpylib._src.defaults.defaults_utility", "magpylib._src.obj_classes.class_BaseGeo",
              "magpylib._src.display.traces_generic", "magpylib._src.display.traces_utility"):
        mods[m] = importlib.import_module(m)
        f = os.path.abspath(mods[m].__file__)
        if not f.startswith(repo + os.sep):
            fail(f"{m} imported from {f}, not from {repo}")
    style = mods["magpylib._src.style"]
    dcls = mods["magpylib._src.defaults.defaults_classes"]
    dutil = mods["magpylib._src.defaults.defaults_utility"]
    basegeo = mods["magpylib._src.obj_classes.class_BaseGeo"].BaseGeo
    markers = mods["magpylib._src.display.traces_generic"].MagpyMarkers
    if dutil.DEFAULTS != defaults:
        fail("imported DEFAULTS differs from the literal in defaults_values.py")

    sb = SchemaBuilder(dutil.MagicProperties)
    defaults_struct = sb.class_struct(dcls.DefaultSettings)

    # object classes: style class, families
    # only the library's own classes, in a canonical order: other checks define BaseSource subclasses in their
    # processes, and registration order depends on import order -- the generated text must not
    classes = sorted((c for c in all_subclasses(basegeo) if c.__module__.startswith("magpylib.")),
                     key=lambda c: (c.__module__, c.__name__))
    style_classes = {}
    rows = []
    fwd = []
    for c in classes:
        sc = c._style_class                       # pylint: disable=protected-access
        if not (inspect.isclass(sc) and issubclass(sc, dutil.MagicProperties)):
            fail(f"{c.__name__}._style_class is not a MagicProperties class")
        style_classes.setdefault(sc.__name__, sc)
        fams = style.get_families(object.__new__(c))
        rows.append((c.__name__, sc.__name__, fams))
        public = not c.__name__.startswith("Base")
        if public:
            ok, detail = style_forwarding(c, basegeo)
            fwd.append((c.__name__, ok, detail))
    # markers (not a BaseGeo): style created in __init__
    msrc = strip_doc(fn_ast(markers.__init__).body)
    if not any(ast.unparse(s) == "self._style = DefaultMarkers()" for s in msrc):
        fail("MagpyMarkers.__init__ no longer creates a DefaultMarkers style")
    style_classes.setdefault("DefaultMarkers", style.DefaultMarkers)
    rows.append(("MagpyMarkers", "DefaultMarkers", style.get_families(object.__new__(markers))))
    structs = {name: sb.class_struct(sc) for name, sc in style_classes.items()}

    # the family classes (names of get_families' local imports) and, per object class, its families ordered
    # from the most generic to the most specific class (subclass relation) -- independent of the import order
    gf = fn_ast(style.get_families)
    famcls = {}
    for n in ast.walk(gf):
        if isinstance(n, ast.ImportFrom):
            for al in n.names:
                nm = al.asname or al.name
                famcls[nm.lower()] = getattr(importlib.import_module(n.module), al.name)
    spec_rows = []
    for cname, _, fams in rows:
        for f in fams:
            if f not in famcls:
                fail(f"family {f} of {cname} is not a class imported by get_families")
        order = sorted(fams, key=lambda f: len(famcls[f].__mro__))
        for a, b in zip(order, order[1:]):
            if not issubclass(famcls[b], famcls[a]):
                fail(f"families {a}/{b} of {cname} are not ordered by the subclass relation")
        spec_rows.append((cname, order))
    if strict and body_text(strip_doc(fn_ast(basegeo.style.fset).body)) != "self._style = self._validate_style(val)":
        fail("BaseGeo.style setter is not `self._style = self._validate_style(val)`")
    def form(fn, variants, what):
        try:
            return whole_body(fn, variants, what)
        except Untranslatable:
            if strict:
                raise
            return None

    def guarded(f):
        try:
            return f()
        except Untranslatable:
            if strict:
                raise
            return None

    whole_body_ = form
    flags = {
        "magic_merge_fresh": None,
        "reset_mode": whole_body_(dcls.DefaultSettings.reset, RESET_FORMS, "DefaultSettings.reset"),
        "ctor_copies_style": whole_body_(basegeo._process_style_kwargs, PROCESS_FORMS,   # pylint: disable=protected-access
                                        "BaseGeo._process_style_kwargs") == "copy",
        "magic_mode": whole_body_(dutil.magic_to_dict, M2D_MODES, "magic_to_dict"),
        "subobject_instance_copied": whole_body_(dutil.validate_property_class, VPC_FORMS,
                                                 "validate_property_class") == "copy",
        "set_children_copies_arg": whole_body_(
            importlib.import_module("magpylib._src.obj_classes.class_Collection").BaseCollection.set_children_styles,
            SCS_FORMS, "Collection.set_children_styles") == "copy",
        "pending_style_consumed_by_rebinding": (
            whole_body_(basegeo.style.fget, GETTER_FORMS, "BaseGeo.style getter") == "rebind"
            and whole_body_(basegeo.__init__, BASEGEO_INIT_FORMS, "BaseGeo.__init__") == "pending"),
        "style_setter_takes_instance": whole_body_(basegeo._validate_style, VALIDATE_STYLE_FORMS,   # pylint: disable=protected-access
                                                  "BaseGeo._validate_style") == "takeover",
        "temp_style_restored_in_finally": guarded(lambda: temp_style_restored(
            importlib.import_module("magpylib._src.utility").style_temp_edit.__wrapped__)),
        "recursion_forwards_style_kwargs": guarded(lambda: recursion_forwards(
            mods["magpylib._src.display.traces_utility"].get_flatten_objects_properties_recursive)),
    }

    # colours
    pool = list(COLOR_POOL)
    tree_colors(defaults, pool)
    seen, table = [], []
    for v in pool:
        key = (type(v).__name__, repr(v))
        if key in seen:
            continue
        seen.append(key)
        try:
            r = dutil.color_validator(v, allow_None=False)
        except ValueError:
            r = None
        except Exception:   # pylint: disable=broad-except
            continue        # foreign exception (e.g. 'rgb(1,2)' -> TypeError): outside the model's pool
        table.append((v, r))
        if r is not None:
            pool.append(r)      # the table is closed under canonical outputs (idempotence is checked in Coq)
    flags["magic_merge_fresh"] = flags["magic_mode"] in ("MDeep", "MFresh")
    return {"DEFAULTS": defaults, "defaults_schema": defaults_struct, "style_classes": structs,
            "object_classes": rows, "ctor_style": fwd, "colors": table, "family_spec": spec_rows, "flags": flags,
            "stats": (sb.nclasses, sb.nprops, sorted(set((a, b, tuple(c)) for a, b, c in sb.aliases)))}


def generate(repo):
    g = collect(repo)
    out = ["(* GENERATED on every run from /repo by translate/gen_style.py -- do not edit *)",
           "From Coq Require Import ZArith List Bool String.",
           "From MV Require Import Lib.STree Model.StyleModel.",
           "Import ListNotations.",
           "Open Scope string_scope.",
           "Open Scope list_scope.",
           ""]
    out.append("Definition DEFAULTS : tree :=\n" + ctree(g["DEFAULTS"]) + ".\n")
    out.append("Definition defaults_schema : schema :=\n" + emit_schema(g["defaults_schema"]) + ".\n")
    for name, st in g["style_classes"].items():
        out.append(f"Definition schema_{name} : schema :=\n" + emit_schema(st) + ".\n")
    out.append("Definition style_classes : list (string * schema) :=\n  "
               + clist([f"({cstr(n)}, schema_{n})" for n in g["style_classes"]], ";\n   ") + ".\n")
    out.append("(* object class, its style class, its families in the order get_families returns them *)")
    out.append("Definition object_classes : list (string * (string * list string)) :=\n  "
               + clist([f"({cstr(c)}, ({cstr(s)}, {clist([cstr(f) for f in fams])}))"
                        for c, s, fams in g["object_classes"]], ";\n   ") + ".\n")
    out.append("(* public constructors: does `style` reach BaseGeo.__init__'s `style` parameter? *)")
    out.append("Definition ctor_style : list (string * (bool * string)) :=\n  "
               + clist([f"({cstr(c)}, ({'true' if ok else 'false'}, {cstr(d)}))" for c, ok, d in g["ctor_style"]],
                       ";\n   ") + ".\n")
    out.append("(* families of each object class from the most generic to the most specific class *)")
    out.append("Definition family_spec : list (string * list string) :=\n  "
               + clist([f"({cstr(c)}, {clist([cstr(f) for f in fams])})" for c, fams in g["family_spec"]],
                       ";\n   ") + ".\n")
    fl = g["flags"]
    b = lambda x: "true" if x else "false"    # noqa: E731
    out.append("(* source forms recognised as a whole *)")
    out.append(f"Definition reset_mode : rmode := {fl['reset_mode']}.")
    out.append(f"Definition ctor_copies_style : bool := {b(fl['ctor_copies_style'])}.")
    out.append(f"Definition magic_mode : mmode := {fl['magic_mode']}.")
    out.append(f"Definition magic_merge_fresh : bool := {b(fl['magic_merge_fresh'])}.")
    out.append(f"Definition subobject_instance_copied : bool := {b(fl['subobject_instance_copied'])}.")
    out.append(f"Definition set_children_copies_arg : bool := {b(fl['set_children_copies_arg'])}.")
    out.append(f"Definition pending_style_consumed_by_rebinding : bool := "
               f"{b(fl['pending_style_consumed_by_rebinding'])}.")
    out.append(f"Definition style_setter_takes_instance : bool := {b(fl['style_setter_takes_instance'])}.")
    out.append(f"Definition temp_style_restored_in_finally : bool := {b(fl['temp_style_restored_in_finally'])}.")
    out.append(f"Definition recursion_forwards_style_kwargs : bool := {b(fl['recursion_forwards_style_kwargs'])}.\n")
    out.append("Definition colors : color_table :=\n  "
               + clist([f"({cval(v)}, {coval(r)})" for v, r in g["colors"]], ";\n   ") + ".\n")
    nc, npr, al = g["stats"]
    out.append(f"(* {nc} class expansions, {npr} properties, aliases: {al} *)")
    text = "\n".join(out) + "\n"
    # fingerprint of this very text: lets a run verify that the compiled GenStyle.vo it evaluates against was
    # generated from ITS repository (Gen/ is shared with concurrent runs on scratch copies)
    import hashlib
    fp = hashlib.sha1(text.encode()).hexdigest()
    return text + f"\nDefinition gen_fingerprint : string := {cstr(fp)}.\n"
